--------------------------- MODULE DefinitionTrace ---------------------------
(***************************************************************************)
(* Trace validation for Definition: each event records one generated       *)
(* plugin definition (the record TLC exported, emitted as embedded C or as *)
(* Python functions) and what core.load_model_info + build_model + one     *)
(* evaluation did with it.  The event must be the Load or the Reject       *)
(* action of Definition: loaded iff well-formed.                           *)
(***************************************************************************)
EXTENDS TraceBase
VARIABLES def, status
INSTANCE Definition

VARIABLES l, st
TInit == l = 1 /\ st = 0 /\ def = 0 /\ status = 0 /\ TLCSet(1, 0) /\ TLCSet(2, 0)
TNext ==
    /\ l <= NLines
    /\ LET e == TraceLog[l]
           wf == IF e.engine = "py" THEN WellFormedPy(e.def) ELSE WellFormed(e.def)
           bad == IF e.ev # "Define" THEN <<"unknown-event", e.ev>>
                  ELSE IF e.outcome = "loaded" /\ ~wf THEN <<"ill-formed-definition-accepted", e.def.fault>>
                  ELSE IF e.outcome = "rejected" /\ wf THEN <<"well-formed-definition-rejected", e.error>>
                  ELSE <<>>
       IN IF bad = <<>> THEN TRUE
          ELSE PrintT(<<"REJECT", e.tid, l, bad[1], bad[2]>>) /\ TLCSet(2, TLCGet(2) + 1)
    /\ l' = l + 1 /\ st' = st /\ UNCHANGED <<def, status>>
    /\ TLCSet(1, l)
=============================================================================
