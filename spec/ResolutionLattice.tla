------------------------- MODULE ResolutionLattice -------------------------
(***************************************************************************)
(* Export of the configuration lattice of Resolution.tla (grid family x    *)
(* size class x kind x width pattern x magnitude x accuracy x q_calc       *)
(* source x entry point) for replay on the implementation: TLC is the      *)
(* enumerator, the definition of "all configurations" is Resolution!Lattice*)
(***************************************************************************)
EXTENDS Resolution

ASSUME \A c \in Lattice : PrintT(<<"CELL", ToJson(c)>>)
ASSUME PrintT(<<"CELLS", Cardinality(Lattice)>>)

LInit == sc = 0 /\ obj = 0 /\ phase = "lattice"
LNext == UNCHANGED vars
=============================================================================
