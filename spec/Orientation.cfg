SPECIFICATION Spec
CONSTANTS
  NTriples = 4
INVARIANT Orthonormal
INVARIANT DetectorRotation
INVARIANT Inversion
CHECK_DEADLOCK FALSE
