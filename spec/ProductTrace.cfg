INIT TInit
NEXT TNext
CONSTANTS
  SliceVariant = "ok"
POSTCONDITION TraceDone
CHECK_DEADLOCK FALSE
