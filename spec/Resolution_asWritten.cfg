\* resolution.py as written when the check was built: must fail
SPECIFICATION Spec
CONSTANTS
  QMax = 8
  MaxPts = 3
  Widths = {0, 1, 2, 4, 8}
  Widths4 = {0, 2, 8}
  PairW = {0, 1, 4}
  MaxGeo = 2
  NL = 2
  SwapArgs = TRUE
  GeoZero = "lt"
  Normalise = FALSE
  SingleBin = FALSE
INVARIANT Constructs
INVARIANT QcalcPositive
INVARIANT NonNegative
INVARIANT Covers
INVARIANT RowsSumToOne
INVARIANT ZeroWidthIdentity
CHECK_DEADLOCK FALSE
