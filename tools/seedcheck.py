#!/usr/bin/env python3
"""Confirm a seeded change and run checks against it.

usage: tools/seedcheck.py <PROP> <k> [check ids ...]     (seed dir: /tmp/seed/<PROP>/_result/<k>)
1. in the seed worktree: apply the patch, run the baseline suite (must be 101 passed / the same 2 failed),
   run demo.py (must FAIL), undo, run demo.py (must PASS);
2. copy /repo/sasmodels to a scratch tree, apply the patch there, run the named checks with
   VERIF_REPO pointing at it (default: the property's own check), record which report a violation;
3. store patch.diff, demo.py, notes.md and meta.json under /verif/seeded/<PROP>-<k>/.
"""
import json, os, re, shutil, subprocess, sys, tempfile, time

prop, k = sys.argv[1], sys.argv[2]
checks = sys.argv[3:] or [prop]
wt = "/tmp/seed/%s" % prop
src = "%s/_result/%s" % (wt, k)
patch = os.path.join(src, "patch.diff")
env = dict(os.environ, SAS_OPENCL="none", SAS_DLL_PATH=os.path.join(wt, ".dll_confirm"), PYTHONPATH=wt)
meta = {"property": prop, "seed": k, "confirmed": {}, "checks": {}}


def sh(cmd, cwd=None, env=None, timeout=3600):
    p = subprocess.run(cmd, shell=True, cwd=cwd, env=env, capture_output=True, text=True, timeout=timeout)
    return p.returncode, p.stdout + p.stderr


def demo():
    rc, out = sh("/venv/bin/python %s/demo.py" % src, cwd=wt, env=env, timeout=1800)
    return rc, out[-400:]

assert sh("git status --porcelain --untracked-files=no", cwd=wt)[1].strip() == "", "seed worktree not clean"
rc, out = sh("git apply %s" % patch, cwd=wt)
assert rc == 0, out
try:
    rc, out = sh("/venv/bin/python -m pytest -q -p no:cacheprovider --timeout=900 --continue-on-collection-errors", cwd=wt, env=env)
    m = re.search(r"(\d+) failed, (\d+) passed", out)
    fails = sorted(set(re.findall(r"FAILED (\S+)", out)))
    meta["confirmed"]["suite_with_change"] = {"summary": m.group(0) if m else out[-200:], "failed": fails}
    ok_suite = bool(m) and m.group(1) == "2" and m.group(2) == "101" and all("IgorComparisonTest" in f for f in fails)
    rc_d, out_d = demo()
    meta["confirmed"]["demo_with_change"] = {"rc": rc_d, "tail": out_d}
finally:
    sh("git checkout -- .", cwd=wt)
rc_c, out_c = demo()
meta["confirmed"]["demo_without_change"] = {"rc": rc_c, "tail": out_c}
meta["confirmed"]["ok"] = bool(ok_suite and rc_d != 0 and rc_c == 0)
print("confirmed:", meta["confirmed"]["ok"], meta["confirmed"]["suite_with_change"]["summary"], "demo with/without rc", rc_d, rc_c)

tree = tempfile.mkdtemp(prefix="seedrepo-", dir="/tmp")
try:
    shutil.copytree("/repo/sasmodels", os.path.join(tree, "sasmodels"), ignore=shutil.ignore_patterns("__pycache__"))
    rc, out = sh("patch -p1 -d %s < %s" % (tree, patch))
    assert rc == 0, out
    for c in checks:
        t0 = time.time()
        rc, out = sh("./check %s --tier quick" % c, cwd="/verif", env=dict(os.environ, VERIF_REPO=tree), timeout=3000)
        viol = sorted(set(re.findall(r"VIOLATION property=(\S+)", out)))
        keys = re.findall(r"^  key=(.*)$", out, flags=re.M)[:3]
        meta["checks"][c] = {"exit": rc, "violations": len(re.findall(r"^VIOLATION", out, flags=re.M)), "sample_keys": keys,
                             "wall_s": round(time.time() - t0, 1), "tail": out.strip().splitlines()[-1][:300] if out.strip() else ""}
        print("check", c, "exit", rc, "violations", meta["checks"][c]["violations"], keys[:1])
finally:
    shutil.rmtree(tree, ignore_errors=True)
    shutil.rmtree(os.path.join(wt, ".dll_confirm"), ignore_errors=True)
dst = "/verif/seeded/%s-%s" % (prop, k)
os.makedirs(dst, exist_ok=True)
for f in ("patch.diff", "demo.py", "notes.md"):
    if os.path.exists(os.path.join(src, f)):
        shutil.copy(os.path.join(src, f), dst)
meta["detected_by"] = [c for c, r in meta["checks"].items() if r["exit"] == 1]
meta["needs"] = ""
meta["ran"] = "tools/seedcheck.py %s %s %s" % (prop, k, " ".join(checks))
json.dump(meta, open(os.path.join(dst, "meta.json"), "w"), indent=1)
# replays written while running against the seeded tree do not belong to the unchanged tree
for c in checks:
    shutil.rmtree("/verif/replays/%s" % c, ignore_errors=True)
