#!/usr/bin/env python3
"""Fill the hand-written 'what' / 'needs' fields of seeded/<id>/meta.json and print the DESIGN table."""
import json, os, glob
INFO = {
 "C01-5": ("kernel_iq.c advances the mesh position only for accumulated points", "mesh > 100 points AND at least one skipped point (cutoff > 0 or invalid point)"),
 "C01-6": ("numbered members of vector parameters lose their declared limits", "dispersity on a vector member wide enough to cross the declared limit"),
 "C02-5": ("uniform distribution no longer clipped to the hard limits", "uniform with a limit inside centre +- sigma"),
 "C02-6": ("numbered members of vector parameters lose their declared limits", "wide distribution on a vector member, through the model wrappers"),
 "C03-5": ("Pinhole2D: qy/qx computed only where qx != 0 (polar angle 0 on the qx == 0 line)", "2-D pixels exactly at qx == 0"),
 "C03-6": ("Pinhole1D no longer forwards nsigma to pinhole_extend_q", "caller-chosen nsigma larger than the default with the default q_calc"),
 "C05-5": ("rotation matrix rebuilt only when the innermost loop restarts, inside the cutoff test", "2-D, jitter + size dispersity with the size loop innermost, cutoff > 0, low-weight first size point"),
 "C05-6": ("hollow_cylinder theta/phi limits [0,180] / [0,360]", "hollow_cylinder with theta or phi jitter (negative half of the jitter mesh dropped)"),
 "C07-5": ("kernel_iq.c accumulates the effective radius with weight0 (no |cos dtheta| factor)", "2-D, oriented P with theta jitter, effective-radius mode >= 1"),
 "C07-6": ("Kernel.Fq returns <F> without dividing by the total weight", "beta mode AND weights that do not sum to one (cutoff > 0, array distributions)"),
 "C08-5": ("get_mesh treats dim None as 1-D (orientation dispersity dropped)", "2-D mixture whose first component is P@S, with orientation dispersity"),
 "C08-6": ("MixtureKernel caches per-component call details keyed on that component's lengths only", "second call on one kernel where another component's mesh size changed"),
 "C09-5": ("kernelpy _loops: index increment moved after the NaN `continue`", "pure-Python definition with a validity region AND an invalid mesh point followed by valid ones"),
 "C09-6": ("make_source no longer rejects Iqac with psi in the table", "compiled definition declaring theta, phi, psi but supplying only Iqac"),
 "C10-5": ("DataMixin._calc_theory no longer forwards the cutoff", "DirectModel / Iq() / bumps with two dispersed parameters or a large cutoff"),
 "C10-6": ("SasviewModel shares one dispersity record among all parameters", "different dotted dispersity settings on two parameters of one SasView-style object"),
 "C11-5": ("DllKernel result buffer zeroed once at allocation, empty-mesh clear removed", "reused compiled kernel, an ordinary call, then a request whose distribution is cut away entirely"),
 "C11-6": ("_create_vector_Iq marks the plugin's own scalar Iq as vectorized", "pure-Python definition without Iq.vectorized loaded or built twice in one process"),
 "C17-5": ("reloaded plugin module re-executed inside the old module object", "same-process reload after an edit that removes a top-level name"),
 "C17-6": ("library model directory searched before the plugin's own directory", "plugin-local C file whose name also exists in sasmodels/models"),
 "C01-3": ("kernel_iq.c restores the shell-volume sum from the form-volume slot on re-entry (FQ variant)", "hollow model with Fq AND 1-D AND mesh > 100 points"),
 "C01-4": ("make_details pd_stride built from lengths instead of cumulative products", "3 or more dispersed parameters AND mesh > 100 points (pure-Python models: any mesh)"),
 "C02-3": ("degenerate-case guard npts < 2 becomes npts < 1", "exactly one point requested with a non-zero width"),
 "C02-4": ("lognormal / schulz grids may include x = 0 (positive floor removed)", "PD*nsigmas == 1 exactly (grid hits zero)"),
 "C03-3": ("pinhole_extend_q takes the q_calc limits from the first and last data point only", "a point other than the first/last has the widest window (non-monotone dq/q)"),
 "C03-4": ("DataMixin chooses pinhole smearing only if all dx > 0 (was any)", "1-D data with mixed zero and positive dx through DirectModel / bumps / Iq()"),
 "C04-3": ("width-only slit: in_x | abs_x on boolean masks loses the double weight of the folded interval", "width-only slit AND q < W"),
 "C04-4": ("Pinhole2D q_phi = arctan2(qy, |qx|): the sign of qy is forgotten for qx < 0", "qx < 0 AND qy != 0 AND an intensity that is not mirror-symmetric in qy"),
 "C05-3": ("kernel_iq.c no longer resets the jitter angles to zero", "2-D AND non-zero view angle AND enough dispersed sizes (3 triaxial / 4 symmetric) that the angles get no loop"),
 "C05-4": ("one-point absolute distributions keep the view angle as centre", "orientation parameter with pd_n = 1, non-zero width, non-zero view angle, 2-D"),
 "C06-3": ("mag_sld perpz written as a cross product with the y component in the wrong cyclic order", "spin-flip weight AND up_theta != 90 AND up_phi != 0 AND q off the qy axis"),
 "C06-4": ("convert_magnetism converts only rows with M0 != 0", "one SLD with M0 != 0 AND another with M0 == 0 and non-zero mtheta/mphi"),
 "C07-3": ("kernel_iq.c reloads the form-volume sum from the shell-volume slot on re-entry", "hollow P with Fq AND 1-D AND mesh > 100 points"),
 "C07-4": ("volfraction-owned-by-P correction applied to last_s instead of first_s", "P with volfraction (vesicle) AND S with parameters beyond radius_effective and volfraction"),
 "C08-3": ("mixture magnetic offset advances by the number of SLD kernel parameters, not expanded slots", "2-D AND non-zero M0 AND a vector-SLD component that is not last"),
 "C08-4": ("sum components with scale <= 0 are skipped", "a sum with a negative part scale (difference of models)"),
 "C09-3": ("PyKernel parameter vector sized npars instead of call_parameters-2", "pure-Python model with an SLD parameter AND a dispersed parameter"),
 "C09-4": ("contains_shell_volume tested before inline string bodies are turned into functions", "C model whose shell_volume is a body string in the definition file"),
 "C10-3": ("pd_1d / pd_2d built from kernel parameters: expanded vector elements dropped", "dispersity on a vector element (core_multi_shell, onion, spherical_sld) through the direct interfaces"),
 "C10-4": ("SasviewModel.setParam accepts any suffix on a dispersible parameter", "dotted name with a wrong suffix on a visible dispersible parameter"),
 "C11-3": ("SasviewModel.clone copies its tables shallowly", "clone, then setParam on a dotted dispersity name of one, then evaluate the other"),
 "C11-4": ("Kernel.Fq skips the division (and with it the copy) when the total weight is 1", "compiled kernel, Fq path, total weight exactly 1, a later call on the same kernel while the first result is still held"),
 "C12-3": ("core_shell_ellipsoid Iqac drops x_polar_shell from the polar shell radius", "x_polar_shell != 1"),
 "C12-4": ("hollow_rectangular_prism Fq uses a_half for the inner b width", "b2a_ratio != 1 AND thickness > 0"),
 "C13-3": ("wrc_cyl.c Debye term argument loses one factor of q", "flexible_cylinder with length <= 4 kuhn_length AND q kuhn_length <= 3"),
 "C13-4": ("kernel_iq.c reloads the effective-radius sum from the shell-volume slot on re-entry", "mesh > 100 points AND R_eff requested AND a C model defining radius_effective"),
 "C14-3": ("kernel_iq.c restarts weight_norm from 0 on re-entry (FQ variant)", "mesh > 100 points through call_Fq"),
 "C14-4": ("belt_rough Fq drops the roughness factor from <F> only", "sigma > 0 with q*sigma of a few units"),
 "C15-3": ("PyInput 2-D q buffer built as float64 whatever the kernel precision", "non-double precision AND 2-D q"),
 "C15-4": ("_fix_tgmath_int moved after the literal tagging", "non-double precision AND a math call with an integer literal first argument"),
 "C16-3": ("TRANSLATION_VARS hoisted out of the dispersity loop", "translation with an intermediate variable AND a dispersed parameter feeding it"),
 "C16-4": ("volume macros guarded by the new table's volume parameters", "every base volume parameter replaced AND no new parameter typed volume"),
 "C17-3": ("load_dll keeps one wrapper per library path in the process", "same process AND an edit that leaves the generated C unchanged (a default) AND evaluation with defaults"),
 "C17-4": ("modification times in the future are treated as 0", "files stamped ahead of the process clock, same-process reload"),
 "C18-3": ("fixed name <final>_part.so for the library being built", "two processes building the same model at once"),
 "C18-4": ("predictable name for the generated C source, tolerant removal", "one process deletes the shared source before the other's compiler opens it"),
 "C19-3": ("acceptance mask uses max(lam) for every point", "non-constant wavelength AND limiting acceptance"),
 "C19-4": ("background forced to zero only in the non-SESANS branch", "SESANS data with non-zero effective background"),
 "C20-3": ("vector expansion overwrites explicitly listed elements", "spherical_sld / unified_power_Rg / rpa rows that list their elements one by one"),
 "C20-4": ("_is_sld no longer recognises numbered vector SLD elements", "per-shell SLDs of 3.x core_multi_shell / onion / spherical_sld sets"),
 "C04-1": ("pinhole lower window limit computed with the upper multiplier (symmetric +-3 sigma)", "pinhole smearing on a grid that has points between -3 and -2.5 sigma (supplied q_calc) AND an intensity with non-zero slope"),
 "C04-2": ("slit width-only reflected weight abs(qi) - l: the fold of |q+v| is dropped", "width-only slit AND a data point with q < W AND a non-constant intensity"),
 "C12-1": ("elliptical_cylinder Iqabc loses the square on the axis ratio", "axis_ratio != 1 AND qb != 0 AND q*r_major >= 1"),
 "C12-2": ("hollow_rectangular_prism Fq integrates phi over half the octant", "b2a_ratio != 1 (the default cube is exact)"),
 "C20-1": ("convert_model version comparison <= becomes <", "a parameter set saved with exactly model_version (5,0,4) for a model renamed in that table"),
 "C20-2": ("_get_translation_table range(1, p.length) drops the last vector element", "10-shell onion / core_multi_shell sets (index 10 of a vector parameter named once in the table)"),
 "C01-1": ("kernel_iq.c restores weighted_shell from the form-volume slot on kernel re-entry", "mesh > 100 points (kernel re-entered with pd_start > 0) AND hollow model AND 2-D q"),
 "C01-2": ("make_details counts active distributions only among the max_pd selected ones: the refusal becomes dead code", "6 or more dispersed parameters on a model with more than 5 dispersible parameters"),
 "C07-1": ("ProductKernel sets s_length[0] = 1 after make_details", "effective radius from P (mode >= 1) AND user dispersity left on radius_effective AND an S whose radius is dispersible"),
 "C07-2": ("magnetic slice start computed from mode indices (1 when P has neither Fq nor ER modes)", "P with SLDs but neither Fq nor ER modes AND 2-D AND a non-zero magnetic magnitude"),
 "C08-1": ("_MixtureParts advances mag_index only for sums", "product mixture AND 2-D AND a magnetised component that is not first"),
 "C08-2": ("_part_details slices lengths by the unexpanded parameter count", "dispersity on a later element of a vector parameter (core_multi_shell thicknessK) in any mixture"),
 "C09-1": ("kernelpy loop unpacks (shell, form) as (form, shell)", "pure-Python definition with form_volume and shell_volume differing AND at least one dispersed parameter"),
 "C09-2": ("check_angles only enforces 'orientation last' when psi is present", "symmetric oriented definition with theta, phi in the middle of the table"),
 "C10-1": ("1-D data selection overwrites the index with ~isnan(y)", "1-D data with measured y AND a mask or q window"),
 "C10-2": ("bumps create_parameters pops name_pd_type before testing dispersibility", "bumps wrapper only, suffix _pd_type only, on an existing non-dispersible parameter"),
 "C11-1": ("DllKernel skips the call when the request signature (without cutoff) repeats", "same kernel, same dispersed request twice in a row with different cutoff"),
 "C11-2": ("call_Fq pops radius_effective_mode from the caller's dictionary", "the same dictionary object passed to call_Fq twice with a mode other than 1"),
 "C17-1": ("read_text of included C sources cached by path (lru_cache)", "edit of the included C file only, then load again in the same process"),
 "C17-2": ("library name no longer contains the precision", "two loads of the same source at different precisions against one cache directory"),
 "C18-1": ("fixed staging name for the compiled library", "A finishes compiling, B truncates the same staging file, A publishes"),
 "C18-2": ("fixed name for the temporary C source", "two overlapping builds; the second os.unlink raises"),
 "C02-1": ("lognormal density loses its 1/x factor", "lognormal distribution, comparison with the documented density"),
 "C02-2": ("Schulz log-density drops the x-independent terms (underflow)", "Schulz with PD below ~0.037"),
 "C03-1": ("bin_edges clips the first edge at zero", "pinhole, default q_calc, sigma > 0.4 q near q = 0 (negative weights)"),
 "C03-2": ("slit normalisation moved into two branches, length-only branch left out", "Slit1D length-only with a caller-supplied truncated q_calc"),
 "C05-1": ("wrong cross term J23 in the triaxial jitter matrix", "triaxial model, 2-D, psi and theta jitter together, view theta not 0/180"),
 "C05-2": ("fabs dropped from the cos(dtheta) weight", "theta jitter mesh reaching beyond 90 degrees"),
 "C06-1": ("analyser normalisation computed from the unclipped up_frac_f", "up_frac_f strictly outside [0,1] and some M0 non-zero"),
 "C06-2": ("convert_magnetism tests mx instead of M0 after conversion", "every magnetised SLD has mtheta == 0 exactly, with spin-flip weight or up_theta != 90"),
 "C13-1": ("wrc_cyl.c short-chain Debye argument q^2 Rg instead of (q Rg)^2", "flexible_cylinder with length <= 4 kuhn_length and q kuhn_length <= 3"),
 "C13-2": ("hollow_rectangular_prism Fq calls shell_volume with thickness and c2a_ratio swapped", "1-D, c2a_ratio numerically different from thickness"),
 "C14-1": ("hollow_cylinder radius_from_volume uses the shell volume", "effective-radius mode 2 of hollow_cylinder"),
 "C14-2": ("vesicle F1 scaled by volfraction instead of sqrt(volfraction)", "vesicle <F>, equality clause for spherical shapes, volfraction != 1"),
 "C15-1": ("tgmath integer promotion moved after literal tagging", "non-double precision AND a math call with a bare integer first argument (fcc_paracrystal)"),
 "C15-2": ("'!' suffix stripped after the alias lookup", "the spelling quad! (and fast!)"),
 "C16-1": ("TRANSLATION_VARS hoisted out of the dispersity loop", "dispersity on a new parameter that feeds base parameters through an intermediate variable"),
 "C16-2": ("volume branch of make_source chosen from the new table", "every base volume parameter replaced and no new parameter typed volume"),
 "C19-1": ("acceptance mask uses max(lam) for every spin-echo length", "unequal wavelengths AND acceptance well below pi/2"),
 "C19-2": ("background no longer forced to zero for SESANS data", "DirectModel/Gxi on SESANS data with a non-zero background"),
}
rows = []
for d in sorted(glob.glob("/verif/seeded/*/meta.json")):
    m = json.load(open(d))
    sid = "%s-%s" % (m["property"], m["seed"])
    if sid in INFO:
        m["what"], m["needs"] = INFO[sid]
        json.dump(m, open(d, "w"), indent=1)
    det = ", ".join("%s (%d)" % (c, r["violations"]) for c, r in m["checks"].items() if r["exit"] == 1) or "NOT DETECTED"
    clause = ""
    for c, r in m["checks"].items():
        if r["sample_keys"]:
            try:
                clause = json.loads(r["sample_keys"][0]).get("clause", "")
            except Exception:
                pass
    rows.append("| %s | %s | %s | %s | %s | %s |" % (sid, m.get("what", ""), m.get("needs", ""), "yes" if m["confirmed"]["ok"] else "NO", det, clause))
print("| seed | change | needs, to manifest | confirmed | detected by (violations) | first clause |")
print("|---|---|---|---|---|---|")
print("\n".join(rows))
