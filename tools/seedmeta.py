#!/usr/bin/env python3
"""Fill the hand-written 'what' / 'needs' fields of seeded/<id>/meta.json and print the DESIGN table."""
import json, os, glob
INFO = {
 "C04-1": ("pinhole lower window limit computed with the upper multiplier (symmetric +-3 sigma)", "pinhole smearing on a grid that has points between -3 and -2.5 sigma (supplied q_calc) AND an intensity with non-zero slope"),
 "C04-2": ("slit width-only reflected weight abs(qi) - l: the fold of |q+v| is dropped", "width-only slit AND a data point with q < W AND a non-constant intensity"),
 "C12-1": ("elliptical_cylinder Iqabc loses the square on the axis ratio", "axis_ratio != 1 AND qb != 0 AND q*r_major >= 1"),
 "C12-2": ("hollow_rectangular_prism Fq integrates phi over half the octant", "b2a_ratio != 1 (the default cube is exact)"),
 "C20-1": ("convert_model version comparison <= becomes <", "a parameter set saved with exactly model_version (5,0,4) for a model renamed in that table"),
 "C20-2": ("_get_translation_table range(1, p.length) drops the last vector element", "10-shell onion / core_multi_shell sets (index 10 of a vector parameter named once in the table)"),
 "C01-1": ("kernel_iq.c restores weighted_shell from the form-volume slot on kernel re-entry", "mesh > 100 points (kernel re-entered with pd_start > 0) AND hollow model AND 2-D q"),
 "C01-2": ("make_details counts active distributions only among the max_pd selected ones: the refusal becomes dead code", "6 or more dispersed parameters on a model with more than 5 dispersible parameters"),
 "C07-1": ("ProductKernel sets s_length[0] = 1 after make_details", "effective radius from P (mode >= 1) AND user dispersity left on radius_effective AND an S whose radius is dispersible"),
 "C07-2": ("magnetic slice start computed from mode indices (1 when P has neither Fq nor ER modes)", "P with SLDs but neither Fq nor ER modes AND 2-D AND a non-zero magnetic magnitude"),
 "C08-1": ("_MixtureParts advances mag_index only for sums", "product mixture AND 2-D AND a magnetised component that is not first"),
 "C08-2": ("_part_details slices lengths by the unexpanded parameter count", "dispersity on a later element of a vector parameter (core_multi_shell thicknessK) in any mixture"),
 "C09-1": ("kernelpy loop unpacks (shell, form) as (form, shell)", "pure-Python definition with form_volume and shell_volume differing AND at least one dispersed parameter"),
 "C09-2": ("check_angles only enforces 'orientation last' when psi is present", "symmetric oriented definition with theta, phi in the middle of the table"),
 "C10-1": ("1-D data selection overwrites the index with ~isnan(y)", "1-D data with measured y AND a mask or q window"),
 "C10-2": ("bumps create_parameters pops name_pd_type before testing dispersibility", "bumps wrapper only, suffix _pd_type only, on an existing non-dispersible parameter"),
 "C11-1": ("DllKernel skips the call when the request signature (without cutoff) repeats", "same kernel, same dispersed request twice in a row with different cutoff"),
 "C11-2": ("call_Fq pops radius_effective_mode from the caller's dictionary", "the same dictionary object passed to call_Fq twice with a mode other than 1"),
 "C17-1": ("read_text of included C sources cached by path (lru_cache)", "edit of the included C file only, then load again in the same process"),
 "C17-2": ("library name no longer contains the precision", "two loads of the same source at different precisions against one cache directory"),
 "C18-1": ("fixed staging name for the compiled library", "A finishes compiling, B truncates the same staging file, A publishes"),
 "C18-2": ("fixed name for the temporary C source", "two overlapping builds; the second os.unlink raises"),
 "C02-1": ("lognormal density loses its 1/x factor", "lognormal distribution, comparison with the documented density"),
 "C02-2": ("Schulz log-density drops the x-independent terms (underflow)", "Schulz with PD below ~0.037"),
 "C03-1": ("bin_edges clips the first edge at zero", "pinhole, default q_calc, sigma > 0.4 q near q = 0 (negative weights)"),
 "C03-2": ("slit normalisation moved into two branches, length-only branch left out", "Slit1D length-only with a caller-supplied truncated q_calc"),
 "C05-1": ("wrong cross term J23 in the triaxial jitter matrix", "triaxial model, 2-D, psi and theta jitter together, view theta not 0/180"),
 "C05-2": ("fabs dropped from the cos(dtheta) weight", "theta jitter mesh reaching beyond 90 degrees"),
 "C06-1": ("analyser normalisation computed from the unclipped up_frac_f", "up_frac_f strictly outside [0,1] and some M0 non-zero"),
 "C06-2": ("convert_magnetism tests mx instead of M0 after conversion", "every magnetised SLD has mtheta == 0 exactly, with spin-flip weight or up_theta != 90"),
 "C13-1": ("wrc_cyl.c short-chain Debye argument q^2 Rg instead of (q Rg)^2", "flexible_cylinder with length <= 4 kuhn_length and q kuhn_length <= 3"),
 "C13-2": ("hollow_rectangular_prism Fq calls shell_volume with thickness and c2a_ratio swapped", "1-D, c2a_ratio numerically different from thickness"),
 "C14-1": ("hollow_cylinder radius_from_volume uses the shell volume", "effective-radius mode 2 of hollow_cylinder"),
 "C14-2": ("vesicle F1 scaled by volfraction instead of sqrt(volfraction)", "vesicle <F>, equality clause for spherical shapes, volfraction != 1"),
 "C15-1": ("tgmath integer promotion moved after literal tagging", "non-double precision AND a math call with a bare integer first argument (fcc_paracrystal)"),
 "C15-2": ("'!' suffix stripped after the alias lookup", "the spelling quad! (and fast!)"),
 "C16-1": ("TRANSLATION_VARS hoisted out of the dispersity loop", "dispersity on a new parameter that feeds base parameters through an intermediate variable"),
 "C16-2": ("volume branch of make_source chosen from the new table", "every base volume parameter replaced and no new parameter typed volume"),
 "C19-1": ("acceptance mask uses max(lam) for every spin-echo length", "unequal wavelengths AND acceptance well below pi/2"),
 "C19-2": ("background no longer forced to zero for SESANS data", "DirectModel/Gxi on SESANS data with a non-zero background"),
}
rows = []
for d in sorted(glob.glob("/verif/seeded/*/meta.json")):
    m = json.load(open(d))
    sid = "%s-%s" % (m["property"], m["seed"])
    if sid in INFO:
        m["what"], m["needs"] = INFO[sid]
        json.dump(m, open(d, "w"), indent=1)
    det = ", ".join("%s (%d)" % (c, r["violations"]) for c, r in m["checks"].items() if r["exit"] == 1) or "NOT DETECTED"
    clause = ""
    for c, r in m["checks"].items():
        if r["sample_keys"]:
            try:
                clause = json.loads(r["sample_keys"][0]).get("clause", "")
            except Exception:
                pass
    rows.append("| %s | %s | %s | %s | %s | %s |" % (sid, m.get("what", ""), m.get("needs", ""), "yes" if m["confirmed"]["ok"] else "NO", det, clause))
print("| seed | change | needs, to manifest | confirmed | detected by (violations) | first clause |")
print("|---|---|---|---|---|---|")
print("\n".join(rows))
