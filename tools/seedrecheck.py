#!/usr/bin/env python3
"""Re-run checks against every kept seeded change (seeded/<id>/patch.diff) and merge the outcome into meta.json.

usage: tools/seedrecheck.py [ids ...]      default: all; runs the property's own check plus every check that
detected the change before.  The patch is applied to a scratch copy of /repo/sasmodels (VERIF_REPO)."""
import json, os, re, shutil, subprocess, sys, tempfile, time

ROOT = "/verif/seeded"
ids = sys.argv[1:] or sorted(os.listdir(ROOT))
for sid in ids:
    d = os.path.join(ROOT, sid)
    mp = os.path.join(d, "meta.json")
    if not os.path.exists(mp):
        continue
    meta = json.load(open(mp))
    prop = meta["property"]
    checks = [prop] + [c for c in meta.get("checks", {}) if c != prop and meta["checks"][c].get("exit") == 1]
    tree = tempfile.mkdtemp(prefix="seedrepo-", dir="/tmp")
    try:
        shutil.copytree("/repo/sasmodels", os.path.join(tree, "sasmodels"), ignore=shutil.ignore_patterns("__pycache__"))
        p = subprocess.run("patch -p1 -d %s < %s/patch.diff" % (tree, d), shell=True, capture_output=True, text=True)
        assert p.returncode == 0, p.stdout + p.stderr
        for c in checks:
            t0 = time.time()
            p = subprocess.run("./check %s --tier quick" % c, shell=True, cwd="/verif", env=dict(os.environ, VERIF_REPO=tree),
                               capture_output=True, text=True, timeout=3000)
            out = p.stdout + p.stderr
            keys = re.findall(r"^  key=(.*)$", out, flags=re.M)[:3]
            meta.setdefault("checks", {})[c] = {"exit": p.returncode, "violations": len(re.findall(r"^VIOLATION", out, flags=re.M)),
                                                "sample_keys": keys, "wall_s": round(time.time() - t0, 1),
                                                "tail": out.strip().splitlines()[-1][:300] if out.strip() else ""}
            print(sid, "check", c, "exit", p.returncode, "violations", meta["checks"][c]["violations"], keys[:1], flush=True)
            shutil.rmtree("/verif/replays/%s" % c, ignore_errors=True)
    finally:
        shutil.rmtree(tree, ignore_errors=True)
    meta["detected_by"] = [c for c, r in meta["checks"].items() if r["exit"] == 1]
    json.dump(meta, open(mp, "w"), indent=1)
