#!/usr/bin/env python3
"""Assemble MANIFEST.json from manifest.d/*.json fragments (one per property) and base.json."""
import glob, json, os
root = os.path.dirname(os.path.dirname(os.path.abspath(__file__)))
base = json.load(open(os.path.join(root, "manifest.d", "base.json")))
checks, na = [], []
ready = set(open(os.path.join(root, "manifest.d", "ready.txt")).read().split())
for f in sorted(glob.glob(os.path.join(root, "manifest.d", "C*.json"))):
    d = json.load(open(f))
    if "not_applicable" not in d and d["property_id"] not in ready:
        continue
    if "not_applicable" in d:
        na.append(d["not_applicable"])
    else:
        pid = d["property_id"]
        d.setdefault("quick_cmd", "./check %s --tier quick" % pid)
        d.setdefault("thorough_cmd", "./check %s --tier thorough" % pid)
        d.setdefault("evidence_file", "/verif/evidence/%s.json" % pid)
        d.setdefault("replay_cmd_template", "./check %s --replay {path}" % pid)
        checks.append(d)
claimed = {c["property_id"] for c in checks} | {n["property_id"] for n in na}
for line in open(os.path.join(root, "properties.jsonl")):
    pid = json.loads(line)["id"]
    if pid not in claimed:
        na.append({"property_id": pid, "reason": "check not built yet in this round (planned, see DESIGN.md section 4)"})
base["checks"] = checks
base["not_applicable"] = sorted(na, key=lambda x: x["property_id"])
json.dump(base, open(os.path.join(root, "MANIFEST.json"), "w"), indent=1)
print("MANIFEST: %d checks, %d not_applicable" % (len(checks), len(na)))
